(* C01 model driver: replays the implementation's scheduler trace on the extracted models
   (trace acceptance) and prints the models' own summary lines; explores the channel model under
   given memory-order parameters (model_search). *)
let sc_params = { mo_ws_load = SeqCst; mo_ws_store = SeqCst; mo_wb_load = SeqCst; mo_wb_store1 = SeqCst;
                  mo_wb_store2 = SeqCst; mo_rs_load = SeqCst; mo_rs_store = SeqCst; mo_rb_load = SeqCst;
                  mo_rb_store = SeqCst; mo_spin_tas = SeqCst; mo_spin_clear = SeqCst; mo_sync_cas = SeqCst;
                  mo_sync_store = SeqCst }
let mo_of_string = function
  | "Rlx" -> Rlx | "Con" -> Con | "Acq" -> Acq | "Rel" -> Rel | "AcqRel" -> AcqRel | "SeqCst" -> SeqCst | _ -> MoNone
let params_of = function
  | [a; b; c; d; e; f; g; h; i; j; k; l; m] ->
    { mo_ws_load = mo_of_string a; mo_ws_store = mo_of_string b; mo_wb_load = mo_of_string c;
      mo_wb_store1 = mo_of_string d; mo_wb_store2 = mo_of_string e; mo_rs_load = mo_of_string f;
      mo_rs_store = mo_of_string g; mo_rb_load = mo_of_string h; mo_rb_store = mo_of_string i;
      mo_spin_tas = mo_of_string j; mo_spin_clear = mo_of_string k; mo_sync_cas = mo_of_string l;
      mo_sync_store = mo_of_string m }
  | _ -> sc_params

let cell_id = function
  | "wcur" -> 0 | "rcur" -> 1 | "wlock" -> 2 | "rmx" -> 3 | "rcv" -> 4 | "retry" -> 5
  | "mx" -> 0 | "cvne" -> 1 | "cvnf" -> 2 | "-" -> 0 | _ -> 99
let note_of text =
  match words text with
  | ["put"; v] -> (1, int_of_string v) | ["ok"; v] -> (2, int_of_string v) | ["full"; v] -> (3, int_of_string v)
  | ["giveup"; v] -> (4, int_of_string v) | ["got"; v] -> (5, int_of_string v) | ["fld"; v] -> (6, int_of_string v)
  | ["batch"; v] -> (7, int_of_string v) | ["err"; v] -> (8, int_of_string v)
  | _ -> (99, 0)
let rec upto n = if n <= 0 then [] else upto (n - 1) @ [n - 1]
let none_enabled step n st = List.for_all (fun t -> step st (nat_of_int t) O = None) (upto n)
(* The shared acceptor (ocaml/vsacc.ml.inc) echoes the scheduler's "W <tid> cvspur" lines without
   a model step.  Here a spurious condition-variable wake-up is a transition of the model (choice
   1 of the sleeping thread, label cvwoke with a = 1), so this variant of accept_trace replays W
   lines too; everything else is as in accept_trace. *)
let accept_trace_w (step : 's -> nat -> nat -> ('s * label) option) (st0 : 's)
    (cell_id : string -> int) (choice_of : string -> int -> int -> int -> int)
    (note_of : string -> int * int) (all_blocked : 's -> bool) (lines : string list) : 's * bool =
  let st = ref st0 and ok = ref true in
  let pend : (int, (int * int) list) Hashtbl.t = Hashtbl.create 8 in
  let reject l why = Printf.printf "REJECT %s :: %s\n" l why; ok := false in
  List.iter (fun l ->
    if !ok then begin
      match words l with
      | "E" :: t :: op :: cell :: _mo :: a :: b :: c :: _ ->
        let ti = int_of_string t and ai = int_of_string a and bi = int_of_string b and ci = int_of_string c in
        (match step !st (nat_of_int ti) (nat_of_int (choice_of op ai bi ci)) with
         | Some (s', LEv e) ->
           if e.e_op = opk_of_string op && int_of_nat e.e_cell = cell_id cell
              && int_of_z e.e_a = ai && int_of_z e.e_b = bi && int_of_z e.e_c = ci
           then (st := s'; print_endline l)
           else reject l (Printf.sprintf "model performs %s cell=%d %s %s %s" (string_of_opk e.e_op)
                            (int_of_nat e.e_cell) (string_of_z e.e_a) (string_of_z e.e_b) (string_of_z e.e_c))
         | Some (_, LPlain _) -> reject l "model is in a plain segment"
         | Some (_, LExit) -> reject l "model thread is at exit"
         | None -> reject l "model thread is not enabled")
      | "R" :: t :: _ ->
        let ti = int_of_string t in
        let text = String.concat " " (List.tl (List.tl (words l))) in
        let cur = try Hashtbl.find pend ti with Not_found -> [] in
        Hashtbl.replace pend ti (cur @ [note_of text]); print_endline l
      | ["P"; t] ->
        let ti = int_of_string t in
        let notes = try Hashtbl.find pend ti with Not_found -> [] in
        Hashtbl.replace pend ti [];
        (match step !st (nat_of_int ti) O with
         | Some (s', LPlain ns) ->
           let ns' = List.map (fun (k, v) -> (int_of_nat k, int_of_z v)) ns in
           if ns' = notes then (st := s'; print_endline l)
           else reject l (Printf.sprintf "model notes [%s] vs logged [%s]"
                            (String.concat ";" (List.map (fun (k, v) -> Printf.sprintf "%d:%d" k v) ns'))
                            (String.concat ";" (List.map (fun (k, v) -> Printf.sprintf "%d:%d" k v) notes)))
         | Some (_, LEv e) -> reject l ("model is at operation " ^ string_of_opk e.e_op)
         | Some (_, LExit) -> reject l "model thread is at exit"
         | None -> reject l "model thread is not enabled")
      | ["X"; t] ->
        (match step !st (nat_of_int (int_of_string t)) O with
         | Some (s', LExit) -> st := s'; print_endline l
         | _ -> reject l "model thread is not at exit")
      | ["W"; t; "cvspur"] ->
        (match step !st (nat_of_int (int_of_string t)) (S O) with
         | Some (s', LEv e) when e.e_op = OCvwoke && int_of_z e.e_a = 1 -> st := s'; print_endline l
         | _ -> reject l "model thread is not asleep on a condition variable")
      | "DEADLOCK" :: _ ->
        if all_blocked !st then print_endline l else reject l "model has an enabled thread"
      | "LIVELOCK" :: _ -> print_endline l
      | _ -> ()
    end) lines;
  (!st, !ok)

let wk_of = function "mutex" -> WMutex | "sync" -> WSync | "spin" -> WSpin | _ -> WSingle
let rm_of = function "sync" -> RSync | "mutex" -> RMutex | _ -> RBusy

let tagopt = function Some m -> int_of_z (tag m) | None -> -1
let is_prefix_del del acc =
  let rec go d a = match d, a with
    | [], _ -> true
    | Some x :: d', y :: a' -> x = y && go d' a'
    | _ -> false in
  go del acc

(* ---- channel ---- *)
(* [chan <wk> <rm> ...] names the mode; [chanflags <flags> ...] gives the raw flags integer and the
   model's mode table (mk_cfg_flags = flag_wk / flag_rm of coq/C01/Dispatch.v) selects the mode *)
let chan_setup kind ws maxtry (vals : (int, int) Hashtbl.t) =
  let with_vals g =
    if Hashtbl.length vals = 0 then g
    else with_val g (fun m -> let tg = int_of_z (tag m) in
                      z_of_int (try Hashtbl.find vals tg with Not_found -> tg)) in
  let ws = (match kind, ws with
      | "chanflags", f :: rest -> "#" :: f :: rest
      | _ -> ws) in
  match ws with
  | wk :: rm :: cap :: nread :: ks ->
    let ks = Array.of_list (List.map int_of_string ks) in
    let nw = Array.length ks in
    let g =
      if wk = "#" then mk_cfg_flags (z_of_int (int_of_string rm)) (z_of_int (int_of_string cap)) (nat_of_int nw) (nat_of_int maxtry)
      else mk_cfg (wk_of wk) (rm_of rm) (z_of_int (int_of_string cap)) (nat_of_int nw) (nat_of_int maxtry) in
    let g = with_vals g in
    let ksf = (fun t -> let i = int_of_nat t in if i >= 1 && i <= nw then nat_of_int ks.(i - 1) else O) in
    let nrd = nat_of_int (int_of_string nread) in
    let st0 = cinit g nrd ksf in
    Some (g, st0, nw, nrd, ksf)
  | _ -> None

let chan_bad st =
  if int_of_nat (c_uncov st) > 0 then Some "the reader's plain read of a slot or payload is not covered by its view (no happens-before edge from the producer)"
  else if not (is_prefix_del (c_del st) (c_acc st)) then Some "delivered is not a prefix of accepted (stale or duplicated delivery)"
  else if int_of_nat (c_overw st) > 0 then Some "a slot holding an unread message was overwritten"
  else if int_of_nat (c_badfull st) > 0 then Some "FULL returned although the ring was not at capacity"
  else None

(* the exploration runs the PRODUCT of the channel model and the read-before-overwrite observer
   (coq/C01/ModelRC.v): besides the ghost counters of the channel state, an uncovered overwrite
   (slot store not ordered after an earlier read of the slot) is a finding *)
let xbad xs =
  match chan_bad xs.x_s with
  | Some why -> Some why
  | None ->
    if int_of_nat xs.x_r.r_unc > 0
    then Some "a writer stored into a slot although the reader's read of the previous message in that slot is not ordered before the store (read_cursor is not stored with release: the slot load may complete after the writer sees the slot free)"
    else None

let explore_chan p g _st0 nw seed runs nread ks =
  Random.init seed;
  let found = ref false and r = ref 0 in
  while not !found && !r < runs do
    incr r;
    let st = ref (xinit g nread ks) and sched = ref [] and k = ref 0 in
    while not !found && !k < 600 do
      incr k;
      let t = Random.int (nw + 1) and c = (match Random.int 8 with 0 | 1 -> 1 | 2 -> 2 | 3 -> 3 | _ -> 0) in
      (match xstep p g !st (nat_of_int t) (nat_of_int c) with
       | Some (s', _) -> st := s'; sched := (t, c) :: !sched
       | None -> ());
      (match xbad !st with
       | Some why ->
         found := true;
         Printf.printf "FOUND %s\n" why;
         Printf.printf "modelsched %s\n" (String.concat " " (List.rev_map (fun (t, c) -> Printf.sprintf "%d:%d" t c) !sched))
       | None -> ())
    done
  done;
  if not !found then print_endline "NOTFOUND"

(* ---- model-guided schedules (DESIGN.md 4.3) ----
   Random walks on the MODEL, biased towards interleaving other threads while some thread sits in
   one of the windows the proofs split on; the walk is emitted as a "sched list" for the real
   code (one list entry per model step; the exit step shares the entry of the thread's last plain
   segment, as in the scheduler).  Windows:
     w1  the reader commits read_cursor while a writer is between its load of read_cursor and
         its full check / slot store
     w2  the reader loads write_cursor while a writer is between its slot store and the publication
     w3  busy mode: the cached read cursor is refreshed (load of read_cursor)
     w4  a publication wraps write_cursor to 0 and leaves capacity-2 messages unread
     w5  a writer publishes while the reader is between its check and its futex sleep *)
let guide_chan g st0 nw seed target tries =
  Random.init seed;
  let n = nw + 1 in
  let pc st t = (st.c_thr (nat_of_int t)).t_pc in
  let step st t = cstep sc_params g st (nat_of_int t) O in
  let usable = let c = int_of_z g.g_cap in if c - 2 > 0 then c - 2 else 0 in
  let in_window p = (match p with WChk | WPub _ | RWait | WLoadR -> true | _ -> false) in
  let best = ref ([], []) and found = ref false and k = ref 0 in
  while not !found && !k < tries do
    incr k;
    let st = ref st0 and sched = ref [] and hits = ref [] and steps = ref 0 and last = ref (-1) and live = ref true in
    let hit w = if not (List.mem w !hits) then hits := w :: !hits in
    while !live && !steps < 1500 do
      let en = List.filter (fun t -> step !st t <> None) (upto n) in
      if en = [] then live := false else begin
        let pick l = List.nth l (Random.int (List.length l)) in
        let holders = List.filter (fun t -> in_window (pc !st t)) (upto n) in
        let others = List.filter (fun t -> not (List.mem t holders)) en in
        let writers = List.filter (fun t -> t > 0) en in
        let t =
          if holders <> [] && others <> [] && Random.int 100 < 70 then pick others
          else if (target = "w4" || target = "w3") && writers <> [] && Random.int 100 < 75 then pick writers
          else if target = "w5" && List.mem 0 en && pc !st 0 <> RWait && Random.int 100 < 60 then 0
          else if List.mem !last en && Random.int 100 < 50 then !last
          else pick en in
        (match step !st t with
         | None -> ()
         | Some (s', lab) ->
           let p = pc !st t in
           let wr_at f = List.exists (fun u -> u > 0 && f (pc !st u)) (upto n) in
           (match p with
            | RStoreR -> if wr_at (fun q -> q = WChk) then hit "w1"
            | RLoadW -> if wr_at (fun q -> match q with WPub _ -> true | _ -> false) then hit "w2"
            | WLoadR -> if g.g_rm = RBusy then hit "w3"
            | WPub _ -> if pc !st 0 = RWait then hit "w5"
            | _ -> ());
           if List.length s'.c_acc > List.length !st.c_acc && int_of_z s'.c_wcur = 0
              && List.length s'.c_acc - int_of_nat s'.c_R = usable && usable > 0 then hit "w4";
           sched := t :: !sched; last := t; incr steps;
           st := s';
           (match lab, pc s' t with
            | LPlain _, (WFin | RFin) ->
              (match step s' t with Some (s'', _) -> st := s'' | None -> ())
            | _ -> ()))
      end
    done;
    if List.mem target !hits || (target = "any" && List.length !hits >= 3) then found := true;
    if List.length !hits >= List.length (snd !best) || !found then best := (List.rev !sched, !hits)
  done;
  let (sched, hits) = !best in
  Printf.printf "sched list - %s\n" (String.concat " " (List.map string_of_int sched));
  Printf.printf "hits %s\n" (String.concat " " (List.sort compare hits))

let replay_chan p g _st0 sched nread ks =
  let st = ref (xinit g nread ks) in
  List.iter (fun tc ->
    match String.split_on_char ':' tc with
    | [t; c] ->
      (match xstep p g !st (nat_of_int (int_of_string t)) (nat_of_int (int_of_string c)) with
       | Some (s', _) -> st := s' | None -> ())
    | _ -> ()) sched;
  let cs = !st.x_s in
  Printf.printf "M accepted=[%s] delivered=[%s] uncovered=%d overwritten=%d badfull=%d overwrite_before_read_completes=%d\n"
    (String.concat "," (List.map (fun m -> string_of_int (int_of_z (tag m))) (c_acc cs)))
    (String.concat "," (List.map (fun d -> string_of_int (tagopt d)) (c_del cs)))
    (int_of_nat (c_uncov cs)) (int_of_nat (c_overw cs)) (int_of_nat (c_badfull cs)) (int_of_nat !st.x_r.r_unc);
  (match xbad !st with Some why -> Printf.printf "FOUND %s\n" why | None -> print_endline "NOTFOUND")

let handle (lines : string list) : unit =
  let rec split acc = function
    | "TRACE" :: rest -> (List.rev acc, rest)
    | x :: rest -> split (x :: acc) rest
    | [] -> (List.rev acc, []) in
  let (cfgl, trace) = split [] lines in
  let scen = ref [] and prm = ref sc_params and explore = ref None and maxtry = ref 0 and msched = ref None and guide = ref None in
  let vals : (int, int) Hashtbl.t = Hashtbl.create 16 in
  List.iter (fun l -> match words l with
    | ("chan" | "chanflags" | "abq" | "dbuf" | "bigfill") :: _ as w -> scen := w
    | "params" :: ps -> prm := params_of ps
    | ["maxtry"; n] -> maxtry := int_of_string n
    | "v" :: ps -> List.iter (fun p -> match String.split_on_char ':' p with
        | [tg; c] -> Hashtbl.replace vals (int_of_string tg) (int_of_string c) | _ -> ()) ps
    | ["explore"; sd; runs] -> explore := Some (int_of_string sd, int_of_string runs)
    | ["guide"; sd; target; tries] -> guide := Some (int_of_string sd, target, int_of_string tries)
    | "modelsched" :: s -> msched := Some s
    | _ -> ()) cfgl;
  match !scen with
  | ("chan" | "chanflags" as kind) :: ws ->
    (match chan_setup kind ws !maxtry vals with
     | None -> print_endline "F badcase"
     | Some (g, st0, nw, nrd, ksf) ->
       (match !msched, !explore with
        | _, _ when !guide <> None ->
          (match !guide with Some (sd, target, tries) -> guide_chan g st0 nw sd target tries | None -> ())
        | Some s, _ -> replay_chan !prm g st0 s nrd ksf
        | None, Some (sd, runs) -> explore_chan !prm g st0 nw sd runs nrd ksf
        | None, None ->
          Printf.printf "F init 0 cap=%s\n" (string_of_z g.g_cap);
          let step = cstep sc_params g in
          let (st, ok) = accept_trace_w step st0 cell_id
              (fun op _ _ c -> if op = "casw" && c = 2 then 1 else if op = "fwait" && (c = 2 || c = 3) then c else 0) note_of (none_enabled step (nw + 1)) trace in
          if ok then Printf.printf "F acc=%d del=%d wcur=%s rcur=%s\n" (List.length (c_acc st)) (List.length (c_del st))
              (string_of_z (c_wcur st)) (string_of_z (c_rcur st))))
  | ["bigfill"; flags; cap; drain] ->
    (* single-threaded fill / drain of a large ring: not replayed step by step (the accepted history of the
       model is a list); the model's answer is the closed form its invariant gives: a writer running alone is
       refused exactly when accepted - read = usable capacity (chan_full_only_if_full, SInv i_RW), reads
       return the accepted messages in order (chan_exactly_once_in_order) *)
    let g = mk_cfg_flags (z_of_int (int_of_string flags)) (z_of_int (int_of_string cap)) (S O) O in
    let c = int_of_z g.g_cap and u = int_of_z (usable g.g_cap) and d = int_of_string drain in
    let d = if d < u then d else u in
    let tot = u + d in
    Printf.printf "F init 0 cap=%d\n" c;
    Printf.printf "F big fill1=%d refused=1 fill2=%d read=%d bad=-1 wcur=%d rcur=%d\n" u d tot (tot mod c) ((tot + c - 1) mod c)
  | "abq" :: cap :: np :: rest ->
    let np = int_of_string np and cap = int_of_string cap in
    let ks = Array.of_list (List.map int_of_string rest) in
    let n = Array.length ks in
    if n <= np then print_endline "F badcase" else begin
      Printf.printf "F init 0 cap=%d\n" cap;
      let st0 = qinit (z_of_int cap) (nat_of_int np) (nat_of_int n)
          (fun t -> let i = int_of_nat t in if i < n then nat_of_int ks.(i) else O) in
      let step = qstep (nat_of_int n) in
      let (st, ok) = accept_trace_w step st0 cell_id
          (fun op _ b _ -> if op = "cvsig" && b >= 0 then b else 0) note_of (none_enabled step n) trace in
      if ok then Printf.printf "F acc=%d del=%d cnt=%s put=%s take=%s\n" (List.length st.q_putl) (List.length st.q_taken)
          (string_of_z st.q_cnt) (string_of_z st.q_put) (string_of_z st.q_take)
    end
  | "dbuf" :: cap :: nb :: total :: rest ->
    let ks = Array.of_list (List.map int_of_string rest) in
    let nw = Array.length ks in
    Printf.printf "F init 0 cap=%s\n" cap;
    let st0 = dinit (z_of_int (int_of_string cap)) (nb <> "0") (nat_of_int !maxtry) (nat_of_int nw)
        (nat_of_int (int_of_string total))
        (fun t -> let i = int_of_nat t in if i >= 1 && i <= nw then nat_of_int ks.(i - 1) else O) in
    let (st, ok) = accept_trace_w dstep st0 cell_id
        (fun op _ b _ -> if op = "cvsig" && b >= 0 then b else 0) note_of (none_enabled dstep (nw + 1)) trace in
    if ok then Printf.printf "F acc=%d del=%d back=%s\n" (List.length st.d_written) (int_of_nat st.d_got)
        (string_of_z (st.d_cnt (not st.d_front)))
  | _ -> print_endline "F badcase"

let () = run_cases handle
