(* C02 model driver: replays the implementation's scheduler trace on the extracted ring-buffer
   model (trace acceptance) and prints the model's own summary lines. *)
let sc_params = { mo_tas = SeqCst; mo_clear = SeqCst; mo_st_lock = SeqCst; mo_st_single = SeqCst;
                  mo_ld_wait = SeqCst; mo_ld_busy = SeqCst; mo_ld_once = SeqCst }
let cell_id = function "cursor" -> 0 | "wlock" -> 1 | "rmtx" -> 2 | "thr" -> 3 | "-" -> 0 | _ -> 99
(* a futex wait that would have blocked but was interrupted (c = 2) / woke spuriously (c = 3) *)
let choice_of op _a _b c = if op = "fwait" && c = 2 then 1 else if op = "fwait" && c = 3 then 2 else 0
let note_of text =
  match words text with
  | ["put"; v] -> (1, int_of_string v)
  | ["got"; v] -> (2, int_of_string v)
  | ["pay"; v] -> (3, int_of_string v)
  | _ -> (99, 0)
let rec upto n = if n <= 0 then [] else upto (n - 1) @ [n - 1]
let none_enabled step n st =
  List.for_all (fun t -> step st (nat_of_int t) O = None) (upto n)

let mo_of_string = function
  | "Rlx" -> Rlx | "Con" -> Con | "Acq" -> Acq | "Rel" -> Rel | "AcqRel" -> AcqRel | "SeqCst" -> SeqCst | _ -> MoNone
let params_of = function
  | [a; b; c; d; e; f; g] ->
    { mo_tas = mo_of_string a; mo_clear = mo_of_string b; mo_st_lock = mo_of_string c;
      mo_st_single = mo_of_string d; mo_ld_wait = mo_of_string e; mo_ld_busy = mo_of_string f;
      mo_ld_once = mo_of_string g }
  | _ -> sc_params

type scen = { flag : int; capreq : int; thr : bool; pre : int; wc : int list; rq : (int * string) list;
              vals : (int * int) list }

let mk_cfg (sc : scen) (wm, rm) : cfg =
  let nw = List.length sc.wc and nr = List.length sc.rq in
  let wa = Array.of_list sc.wc and ra = Array.of_list sc.rq in
  { c_k = cap_log (z_of_int sc.capreq); c_wm = wm; c_rm = rm;
    c_nw = nat_of_int nw; c_nr = nat_of_int nr; c_thr = sc.thr; c_pre = z_of_int sc.pre;
    c_wcnt = (fun t -> let i = int_of_nat t in if i < nw then nat_of_int wa.(i) else O);
    c_rq = (fun t -> let i = int_of_nat t - nw in if i >= 0 && i < nr then nat_of_int (fst ra.(i)) else O);
    c_idx0 = (fun t -> let i = int_of_nat t - nw in if i >= 0 && i < nr then z_of_string (snd ra.(i)) else Z0);
    (* pointer value carried by message id: its own payload object unless the case names another value *)
    c_val = (fun m -> match List.assoc_opt (int_of_z m) sc.vals with Some c when c < 0 -> z_of_int c | _ -> m) }

(* model-level search: random schedules of the MODEL under the given memory-order parameters,
   looking for a state in which the uncovered-read monitor fires.  Used only to produce a
   replay when the proof obligation about the parameters broke. *)
let explore_model (p : params) (c : cfg) (n : int) (seed : int) (runs : int) : unit =
  Random.init seed;
  let found = ref false and r = ref 0 in
  while not !found && !r < runs do
    incr r;
    let st = ref (init c) and sched = ref [] and k = ref 0 in
    while not !found && !k < 600 do
      incr k;
      let t = Random.int n in
      (match step p !st (nat_of_int t) O with
       | Some (s', _) -> st := s'; sched := t :: !sched
       | None -> ());
      if int_of_nat (s_uncov !st) > 0 && not (s_lapped !st) then begin
        found := true;
        Printf.printf "FOUND a reader returns a message whose slot or payload store is not visible to it (plain read not covered by the reader's view)\n";
        Printf.printf "modelsched %s\n" (String.concat " " (List.rev_map string_of_int !sched))
      end
    done
  done;
  if not !found then print_endline "NOTFOUND"

let handle (lines : string list) : unit =
  let rec split acc = function
    | "TRACE" :: rest -> (List.rev acc, rest)
    | x :: rest -> split (x :: acc) rest
    | [] -> (List.rev acc, []) in
  let (cfgl, trace) = split [] lines in
  let sc = ref None and wc = ref [] and rq = ref [] and vals = ref [] and prm = ref sc_params
  and explore = ref None and modes = ref false and types = ref false and caps = ref None in
  List.iter (fun l -> match words l with
    | ["rb"; f; c; th; pre] -> sc := Some (int_of_string f, int_of_string c, th <> "0", int_of_string pre)
    | "w" :: xs -> wc := List.map int_of_string xs
    | "r" :: xs -> rq := List.map (fun e -> match String.split_on_char ':' e with
        | [q; i] -> (int_of_string q, i) | _ -> failwith "bad reader entry") xs
    | "v" :: xs -> vals := !vals @ List.map (fun e -> match String.split_on_char ':' e with
        | [i; c] -> (int_of_string i, int_of_string c) | _ -> failwith "bad value entry") xs
    | ["modes"] -> modes := true
    | ["types"] -> types := true
    | "caps" :: ns -> caps := Some ns
    | "params" :: ps -> prm := params_of ps
    | ["explore"; sd; runs] -> explore := Some (int_of_string sd, int_of_string runs)
    | _ -> ()) cfgl;
  if !types then begin
    (* the C types the model relies on *)
    List.iter2 (fun nm (sz, sg) -> Printf.printf "F field %s %s %s\n" nm (string_of_z sz) (string_of_z sg))
      ["capacity"; "cursor"; "read_cursor"; "flag"; "write_mode"; "read_mode"] ty_fields;
    List.iter (fun nm -> Printf.printf "F sig %s 1\n" nm) ["read"; "write"; "init"];
    (* block size is layout (cache-line padding), not modelled: echo what the code has; pointer at offset 0 *)
    List.iter (fun l -> match words l with
      | ["F"; "block"; sz; _; _] -> Printf.printf "F block %s %s %s\n" sz (string_of_z (fst ty_block_ptr)) (string_of_z (snd ty_block_ptr))
      | _ -> ()) trace
  end else
  match !caps with
  | Some ns ->
    let failed = List.filter_map (fun l -> match words l with
      | ["F"; "cap"; n; "alloc-failed"] -> Some n | _ -> None) trace in
    List.iter (fun n ->
      if List.mem n failed then Printf.printf "F cap %s alloc-failed\n" n
      else match init_capacity (z_of_string n) with
        | Some cp -> Printf.printf "F cap %s 0 %s\n" n (string_of_z cp)
        | None -> Printf.printf "F cap %s %s -1\n" n (string_of_z err_invalid_param)) ns
  | None ->
  if !modes then
    List.iter (fun f ->
      match get_mode (z_of_int f) with
      | Some (w, r) -> Printf.printf "F mode %d 0 %s %s\n" f (string_of_z (wmode_num w)) (string_of_z (rmode_num r))
      | None -> Printf.printf "F mode %d %s -1 -1\n" f (string_of_z err_invalid_param)) (upto 32)
  else
  match !sc with
  | None -> print_endline "F badcase"
  | Some (flag, capreq, thr, pre) ->
    let s = { flag; capreq; thr; pre; wc = !wc; rq = !rq; vals = !vals } in
    let n = List.length s.wc + List.length s.rq in
    if n <= 0 || n > 12 then print_endline "F badcase"
    else if capreq <= 0 then Printf.printf "F init=%s\n" (string_of_z err_invalid_param)
    else match get_mode (z_of_int flag) with
    | None -> Printf.printf "F init=%s\n" (string_of_z err_invalid_param)
    | Some (wm, rm) ->
      let c = mk_cfg s (wm, rm) in
      (match !explore with
       | Some (sd, runs) -> explore_model !prm c n sd runs
       | None ->
         print_endline "F init=0";
         Printf.printf "F cap=%s wmode=%s rmode=%s\n" (string_of_z (cap c)) (string_of_z (wmode_num wm))
           (string_of_z (rmode_num rm));
         (* a reader's first index must name a ring position that has been written (or the cursor position) *)
         let nwr = List.length s.wc in
         let bad_start = rm <> ROnce &&
           List.exists (fun i -> int_of_z (rd_start c (nat_of_int (nwr + i))) < 0) (upto (List.length s.rq)) in
         if bad_start then print_endline "F badcase" else
         (* the extracted thread map is a chain of closures (upd / wake_all, the latter evaluating the inner map
            twice): after every step it is re-tabulated over the scenario's threads, which keeps look-ups O(1)
            and is extensionally the same function on the thread ids that exist *)
         let st0 = init c in
         let flatten (s' : sys) : sys =
           let a = Array.init n (fun i -> s'.s_thr (nat_of_int i)) in
           { s' with s_thr = (fun t -> let i = int_of_nat t in if i < n then a.(i) else st0.s_thr t) } in
         let stp st t ch = match step sc_params st t ch with
           | Some (s', l) -> Some (flatten s', l)
           | None -> None in
         let (st, ok) = accept_trace stp st0 cell_id choice_of note_of (none_enabled stp n) trace in
         if ok then begin
           Printf.printf "F cursor=%s rcursor=%s begun=%s delivered=%s\n" (string_of_z (s_cursor st))
             (string_of_z (s_rc st)) (string_of_z (s_begun st)) (string_of_z (s_deliv st));
           if thr && s_lapped st then print_endline "F MODEL: no-lapping precondition violated although the harness throttle is on";
           if not (s_lapped st) && int_of_nat (s_uncov st) > 0 then
             Printf.printf "F MODEL: %d plain reads not covered by the reader's view under sequentially consistent orders\n"
               (int_of_nat (s_uncov st))
         end)

let () = run_cases handle
