(* C15 model driver = trace acceptor.  Input: the case script, a line "TRACE", then the
   implementation's log (harness/drivers/c15_driver.c).  Every logged line is turned into the
   model event it stands for and must be enabled in the current model state and produce the
   logged values (counter results, context ids, bytes = the next bytes of the stream).  Silent
   model steps (a release_ctx whose counter result is not 0; leaving the back-end's run loop)
   are inferred: when a line is not accepted the pending silent step is taken and the line is
   tried again.  Accepted lines are echoed; the first line that cannot be accepted is replaced
   by "REJECT ..." and the replay stops.  Finally the model prints its own summary lines. *)

let bytes_of_hex (h : string) : z list =
  let n = String.length h / 2 in
  List.init n (fun i -> z_of_int (int_of_string ("0x" ^ String.sub h (2 * i) 2)))
let hex_of_bytes (l : z list) : string =
  String.concat "" (List.map (fun b -> Printf.sprintf "%02x" (int_of_z b)) l)
let rec firstn_l n l = if n <= 0 then [] else match l with [] -> [] | a :: r -> a :: firstn_l (n - 1) r
let nat = nat_of_int

let string_of_pc = function
  | PIdle -> "idle" | PAccFd -> "accept:fd" | PAccAlloc c -> Printf.sprintf "accept:allocated %d" (int_of_nat c)
  | PAccReg c -> Printf.sprintf "accept:registered %d" (int_of_nat c)
  | PAccFree c -> Printf.sprintf "accept:free-due %d" (int_of_nat c)
  | PAccClose c -> Printf.sprintf "accept:close-due %d" (int_of_nat c)
  | PAccNoAlloc -> "accept:noalloc" | PWakeReg c -> Printf.sprintf "wake:registered %d" (int_of_nat c)
  | PWake -> "on_wake (queue mutex held)" | PWakeCb -> "on_wake:cb_wake-due"
  | PWakeClr -> "handle_wakeup:signal cleared, on_wake due"
  | PRel (c, _) -> Printf.sprintf "release_ctx %d" (int_of_nat c)
  | PRelClose (c, _) -> Printf.sprintf "release_ctx %d:close-due" (int_of_nat c)
  | PRelFree (c, _) -> Printf.sprintf "release_ctx %d:free-due" (int_of_nat c)
  | PFin -> "drained" | PDone -> "returned"

(* ---------------------------------------------------------------- sockets *)
let accept_sock (cbs : string) (trace : string list) : unit =
  (* which optional callbacks the case installs: the model's configuration; a log line of a callback that is
     not installed is rejected, and the point where a missing callback would have run is a silent step *)
  let has ch = String.contains cbs ch in
  let st = ref (initf { f_conn = has 'c'; f_msg = has 'm'; f_close = has 'l'; f_release = has 'r';
                        f_addctx = has 'a'; f_wake = has 'w' }) and ok = ref true in
  let reject l why =
    Printf.printf "REJECT %s :: %s (loop thread at %s)\n" l why (string_of_pc !st.pc); ok := false in
  (* try an event, expecting result [want] when given *)
  let try_ev (e : ev) (want : int option) : bool =
    match step !st e with
    | Some (s', r) ->
      (match want with
       | Some w when int_of_z r <> w -> false
       | _ -> st := s'; true)
    | None -> false in
  (* without cb_wake the end of on_wake (unlock, return) leaves no line *)
  let wake_end () : bool =
    (not (has 'w')) && (try_ev ETauWakeBegin None || try_ev ETauWakeUnlock None || try_ev EWake None) in
  let tau () : bool = try_ev ETauRel None || wake_end () || try_ev ETauBreak None in
  let fire ?(pre = []) l (e : ev) (want : int option) =
    let budget = ref 100000 in
    let rec go () =
      if try_ev e want then print_endline l
      else if !budget > 0 && List.exists (fun p -> try_ev p None) pre then (decr budget; go ())
      else if !budget > 0 && tau () then (decr budget; go ())
      else
        let why = match step !st e, want with
          | Some (_, r), Some w -> Printf.sprintf "model result %d, logged %d" (int_of_z r) w
          | _ -> "event not enabled in the model" in
        reject l why in
    go () in
  let nctx () = List.length !st.ctxs in
  (* hand-over: "hand c" is logged before muggle_socket_evloop_add_ctx is called, "handed c" after
     it returned; the enqueue lies in between.  A context is [pending] from its "hand" line until
     the model has enqueued it: at its "handed" line at the latest, or earlier when on_wake is
     seen to register it (its "reg" line comes before the "wake" line that ends this on_wake). *)
  let pending : (int, unit) Hashtbl.t = Hashtbl.create 8 in
  let tr = Array.of_list trace in
  (* the loop thread has finished (or is finishing, mutex held) on_exit: a hand-over that completes now was
     enqueued after the drain; it stays pending: either on_exit is seen to release it after all, or the
     driver takes it back ("late c") *)
  let drained () = (match !st.pc with PFin | PDone -> true | _ -> false) in
  let late : (int, unit) Hashtbl.t = Hashtbl.create 8 in
  (* is context c registered by the on_wake whose end is the next "wake" line after line i ? *)
  let reg_before_wake (i : int) (c : int) : bool =
    let found = ref false and j = ref (i + 1) and stop = ref false in
    while not !found && not !stop && !j < Array.length tr do
      (match words tr.(!j) with
       | ["wake"] | ["sigr"] | ["idle"] -> stop := true
       | ["reg"; d; _] when int_of_string_opt d = Some c -> found := true
       | _ -> ());
      incr j
    done;
    !found in
  let wake_begin_ref : (string -> int -> bool) ref = ref (fun _ _ -> false) in
  let rec enqueue ?(at = -1) l (c : int) : bool =
    (* the signal is cleared and on_wake is due: an enqueue seen now happened before on_wake took the mutex iff this
       on_wake registers the context; otherwise on_wake has (silently) locked, drained and unlocked already *)
    (match !st.pc with
     | PWakeClr when at >= 0 && not (reg_before_wake at c) ->
       if !wake_begin_ref l at then ignore (try_ev ETauWakeUnlock None)
     | _ -> ());
    let rec go budget =
      if try_ev (EHand (nat c)) None then (Hashtbl.remove pending c; true)
      else if budget > 0 && (try_ev ETauRel None || try_ev ETauWakeUnlock None) then go (budget - 1)
      else if drained () then true          (* deferred: still pending *)
      else (reject l (Printf.sprintf "hand-over of context %d cannot have happened here" c); false) in
    go 1000 in
  (* the wake-up is dispatched: everything on_wake is going to register was enqueued before *)
  let wake_begin l (i : int) : bool =
    let good = ref true and j = ref i and stop = ref false in
    while !good && not !stop && !j < Array.length tr do
      (match words tr.(!j) with
       | ["wake"] | ["sigr"] | ["idle"] -> stop := true
       | ["reg"; c; _] when Hashtbl.mem pending (int_of_string c) -> good := enqueue l (int_of_string c)
       | _ -> ());
      incr j
    done;
    !good && (try_ev ETauWakeBegin None || (reject l "wake-up handling cannot start here"; false)) in
  wake_begin_ref := wake_begin;
  (* on_wake is entered from *_handle_wakeup AFTER muggle_ev_signal_clearup: its "sigr" line comes first *)
  let cleared () = (match !st.pc with PWakeClr -> true | _ -> false) in
  let at_idle () = (match !st.pc with PIdle -> true | _ -> false) in
  let no_clear l =
    reject l "on_wake runs although the event signal has not been cleared first (no clear-up between the back-end's report and the wake callback)" in
  (* events of the loop thread between two dispatches: only a pending silent release may precede them *)
  let fire_idle l (e : ev) (why : string) =
    let rec go budget =
      if try_ev e None then print_endline l
      else if budget > 0 && (try_ev ETauRel None || wake_end ()) then go (budget - 1)
      else reject l why in
    go 1000 in
  Array.iteri (fun i l ->
    if !ok then begin
      let cb_of = [("wake", 'w'); ("msg", 'm'); ("conn", 'c'); ("close", 'l'); ("release", 'r'); ("addctx", 'a')] in
      match words l with
      | w :: _ when List.mem_assoc w cb_of && not (has (List.assoc w cb_of)) ->
        reject l (Printf.sprintf "callback line '%s' although that callback is not installed in this configuration" w)
      | ["hand"; c] -> Hashtbl.replace pending (int_of_string c) (); print_endline l
      | ["handed"; c] ->
        let c = int_of_string c in
        if not (Hashtbl.mem pending c) || enqueue ~at:i l c then print_endline l
      | ["reg"; c; r] when int_of_string c >= 0 ->
        let e = EReg (nat (int_of_string c), int_of_string r = 0) in
        let rec go budget =
          if try_ev e None then print_endline l
          else if budget > 0 && cleared () then (if wake_begin l i then go (budget - 1))
          else if budget > 0 && try_ev ETauRel None then go (budget - 1)
          else if at_idle () && (Hashtbl.mem pending (int_of_string c) || List.mem (nat (int_of_string c)) !st.queue) then no_clear l
          else reject l "registration not enabled in the model (not the head of the hand-over queue / not in the accept path)" in
        go 1000
      | ["wake"] ->
        let rec go budget =
          if try_ev EWake None then print_endline l
          else if budget > 0 && cleared () then (if wake_begin l i then go (budget - 1))
          else if budget > 0 && try_ev ETauRel None then go (budget - 1)
          else if budget > 0 && try_ev ETauWakeUnlock None then go (budget - 1)
          else if at_idle () then no_clear l
          else
            (match !st.pc, !st.queue with
             | PWake, c :: _ ->
               reject l (Printf.sprintf "on_wake returned with a non-empty hand-over queue (context %d still queued, %d in all)"
                           (int_of_nat c) (List.length !st.queue))
             | _ -> reject l "cb_wake not enabled in the model") in
        go 1000
      | ["sigw"; "x"] -> (match step !st ESigw with Some (s', _) -> st := s'; print_endline l | None -> reject l "signal write not enabled")
      | ["sigw"; c] ->
        (* the wake-up of hand-over c: its enqueue is done *)
        let c = int_of_string c in
        if not (Hashtbl.mem pending c) || enqueue ~at:i l c then begin
          if Hashtbl.mem pending c then print_endline l          (* deferred (after the drain): nobody is woken *)
          else if try_ev (ESigHand (nat c)) None then print_endline l
          else reject l (Printf.sprintf "wake-up write of hand-over %d without a pending enqueue" c)
        end
      | ["sigr"] ->
        fire_idle l ESigClear "the event signal is cleared outside *_handle_wakeup's place in the loop (the loop thread is not between two dispatches)"
      | ["idle"] ->
        if !st.wsig && at_idle () then
          reject l "the loop thread blocks in its back-end although the event signal is set"
        else fire_idle l ESleep "the loop thread blocks in its back-end at a point where the model's loop thread is not between two dispatches"
      | ["late"; c] ->
        let c = int_of_string c in
        if Hashtbl.mem pending c && drained () then (Hashtbl.remove pending c; Hashtbl.replace late c (); print_endline l)
        else reject l (Printf.sprintf "context %d is still in the hand-over queue after run() returned although it was enqueued before on_exit drained the queue" c)
      | ["latefree"; c] when Hashtbl.mem late (int_of_string c) -> print_endline l
      | ["fdclose"; c] when (match int_of_string_opt c with Some c -> Hashtbl.mem late c | None -> false) -> print_endline l
      | "INCONCLUSIVE" :: _ -> print_endline l
      | ("E" | "P" | "X") :: _ -> ()          (* scheduler events of a scheduled scenario: not part of the callback log *)
      | ("DEADLOCK" | "LIVELOCK") :: _ -> print_endline l
      | ["release"; c] when Hashtbl.mem pending (int_of_string c) ->
        (* on_exit released it before the handing thread logged the return of add_ctx *)
        if enqueue l (int_of_string c) then fire l (ERelease (nat (int_of_string c))) None
      | ["halloc"; c; k] ->
        if int_of_string c <> nctx () then reject l "context id is not the next id"
        else if k = "L" then fire l (EHalloc (KListen, nat 0)) None
        else fire l (EHalloc (KConn, nat (int_of_string k))) None
      | ["reg"; _; _] -> reject l "registration of an unknown context"
      | ["addctx"; c] ->
        if has 'a' then fire l (EAddctx (nat (int_of_string c))) None else reject l "cb_add_ctx invoked although it is not installed"
      | ["addctx0"; c] ->
        if has 'a' then reject l "registration of a handed-over context not followed by cb_add_ctx although it is installed"
        else fire l (EAddctx (nat (int_of_string c))) None
      | ["conn0"; c; k] ->
        let k = int_of_string k in
        if has 'c' then reject l "registration of an accepted context not followed by cb_conn although it is installed"
        else fire l (EConn (nat (int_of_string c), nat (if k < 0 then 100000 else k))) None
      | "badpool" :: _ -> reject l "cb_alloc / cb_free called with a pool argument that is not the handle's mempool"
      | ["accepted"] -> fire l EAccepted None
      | ["accepterr"; c] -> fire l (EAccepterr (nat (int_of_string c))) None
      | ["allocfail"] -> fire l EAllocfail None
      | ["alloc"; c] -> fire l (EAlloc (nat (int_of_string c))) None
      | ["conn"; c; k] ->
        let k = int_of_string k in
        fire l (EConn (nat (int_of_string c), nat (if k < 0 then 100000 else k))) None
      | ["free"; c] -> fire l (EFree (nat (int_of_string c))) None
      | ["fdclose"; "new"] -> fire l EFdcloseNew None
      | ["fdclose"; c] ->
        let c = nat (int_of_string c) in
        (* no cb_close / cb_release: their points are passed silently before the descriptor is closed *)
        fire ~pre:((if has 'l' then [] else [EClose c]) @ (if has 'r' then [] else [ERelease c])) l (EFdclose c) None
      | ["msg"; c] -> fire l (EMsg (nat (int_of_string c))) None
      | ["rd"; c; "eof"] -> fire l (ERdEof (nat (int_of_string c))) None
      | ["rd"; c; "err"] -> fire l (ERdErr (nat (int_of_string c))) None
      | ["rd"; c; h] -> fire l (ERd (nat (int_of_string c), bytes_of_hex h)) None
      | ["shut"; c] -> fire l (EShut (nat (int_of_string c))) None
      | ["retain"; c; _; r] -> fire l (ERetain (nat (int_of_string c))) (Some (int_of_string r))
      | ["close"; c] ->
        let ci = int_of_string c in
        let skipped =
          (match (if ci >= 0 then List.nth_opt !st.ctxs ci else None) with
           | Some x when not x.k_flag && not (!st.preset x.k_conn) ->
             let unread = List.length (!st.sent x.k_conn) - List.length x.k_got in
             if unread > 0 then Some unread else None
           | _ -> None) in
        (match skipped with
         | Some n when ci >= 0 ->
           reject l (Printf.sprintf "cb_close although %d byte(s) the peer sent are still readable and nobody shut the context down: the back-end closed on a hang-up without offering them to the read callback" n)
         | _ -> fire l (EClose (nat ci)) None)
      | ["release"; c] ->
        let c = nat (int_of_string c) in
        fire ~pre:(if has 'l' then [] else [EClose c]) l (ERelease c) None
      | ["exitreq"] | ["xexit"] -> fire l EExitreq None
      | ["returned"] -> fire l EReturned None
      | ["wrel"; c; _; r] -> fire l (EWrel (nat (int_of_string c))) (Some (int_of_string r))
      | ["wrelease"; c] -> fire l (EWrelease (nat (int_of_string c))) None
      | ["wfree"; c] -> fire l (EWfree (nat (int_of_string c))) None
      | ["wshut"; c; _] -> fire l (EWshut (nat (int_of_string c))) None
      | "send" :: k :: rest ->
        let h = match rest with h :: _ -> h | [] -> "" in
        fire l (ESend (nat (int_of_string k), bytes_of_hex h)) None
      | ["cclose"; k] -> fire l (EPclose (nat (int_of_string k))) None
      | ["creset"; k] -> fire l (EPreset (nat (int_of_string k))) None
      | ["halfclose"; c] -> fire l (EMsg (nat (int_of_string c))) None   (* a use of the context from a callback *)
      | ("cconn" | "cfail" | "sendfail" | "await" | "stalled" | "unstall" | "quiet") :: _ -> print_endline l
      | "F" :: _ -> ()
      | [] -> ()
      | _ -> reject l "no model event for this line"
    end) tr;
  if !ok then begin
    let s = !st in
    List.iteri (fun i x ->
      if int_of_nat x.k_uar <> 0 then Printf.printf "MODELVIOLATION context %d used after release\n" i;
      if int_of_nat x.k_nfree > 1 then Printf.printf "MODELVIOLATION context %d freed twice\n" i) s.ctxs;
    Printf.printf "F ctx alloc=%d freed=%d late=%d\n" (List.length s.ctxs) (int_of_nat (n_freed s)) (Hashtbl.length late);
    print_endline "F heap_delta=0 fd_delta=0 badclose=0"
  end

(* ---------------------------------------------------------------- pipe *)
let ptr_bytes (w : int) (i : int) : z list =
  let lo = i + 1 and hi = w + 1 in
  List.init 8 (fun b -> let v = if b < 4 then (lo lsr (8 * b)) land 255 else (hi lsr (8 * (b - 4))) land 255 in z_of_int v)

let accept_pipe (writers : int) (per : int) (trace : string list) : unit =
  let scripts (w : nat) : z list list =
    let wi = int_of_nat w in
    if wi < writers then List.init per (fun i -> ptr_bytes wi i) else [] in
  let st = ref (pinit (nat 8) scripts) and ok = ref true and npr = ref 0 in
  let reject l why = Printf.printf "REJECT %s :: %s\n" l why; ok := false in
  let doev l (e : pev) : bool =
    match pstep !st e with
    | Some s' -> st := s'; true
    | None -> reject l "event not enabled in the pipe model"; false in
  List.iter (fun l ->
    if !ok then begin
      match words l with
      | ["W"; w; ("again" | "intr")] -> if doev l (PWAgain (nat (int_of_string w))) then print_endline l
      | ["W"; _; "err"] -> reject l "write error on the pipe"
      | ["W"; w; h] ->
        let wi = int_of_string w and bs = bytes_of_hex h in
        let n = List.length bs in
        let locked = match !st.p_lock with
          | None -> doev l (PLock (nat wi))
          | Some h -> if int_of_nat h = wi then true
            else (reject l (Printf.sprintf "writer %d writes while writer %d holds the lock with an incomplete pointer"
                              wi (int_of_nat h)); false) in
        if locked then begin
          if firstn_l n !st.p_rem <> bs then
            reject l ("bytes written differ from the pointer's remaining bytes " ^ hex_of_bytes !st.p_rem)
          else if doev l (PWrite (nat wi, nat n)) then begin
            print_endline l;
            if !st.p_rem = [] then ignore (doev l (PUnlock (nat wi)))
          end
        end
      | ["R"; ("again" | "intr")] -> if doev l PRAgain then print_endline l
      | ["R"; ("eof" | "err")] -> reject l "pipe closed or failed under the reader"
      | ["R"; h] ->
        let bs = bytes_of_hex h in
        let n = List.length bs in
        if firstn_l n !st.p_buf <> bs then reject l "bytes read differ from the pipe's content in the model"
        else if doev l (PRead (nat n)) then print_endline l
      | ["pr"; w; i] ->
        let d = !st.p_del in
        if !npr >= List.length d then reject l "pointer returned although the model has no complete pointer"
        else if List.nth d !npr <> ptr_bytes (int_of_string w) (int_of_string i) then
          reject l ("model delivered " ^ hex_of_bytes (List.nth d !npr))
        else (incr npr; print_endline l)
      | ["pdone"; n] ->
        if int_of_string n <> List.length !st.p_del then reject l "delivered count differs from the model"
        else print_endline l
      | "F" :: _ -> ()
      | [] -> ()
      | _ -> reject l "no model event for this line"
    end) trace;
  if !ok then begin
    let s = !st in
    (* exactly once, per-writer order: recomputed on the model state *)
    if s.p_lock = None && s.p_buf = [] && s.p_roff = [] then begin
      if s.p_del <> p_order s then print_endline "MODELVIOLATION delivered differs from lock order";
      for w = 0 to writers - 1 do
        if by_writer (nat w) s.p_lin @ s.p_todo (nat w) <> scripts (nat w) then
          Printf.printf "MODELVIOLATION writer %d order\n" w
      done
    end;
    print_endline "F heap_delta=0 fd_delta=0 badclose=0"
  end

let kvi (line : string) (key : string) (dflt : int) : int =
  let r = ref dflt in
  List.iter (fun w ->
    let p = key ^ "=" in
    let lp = String.length p in
    if String.length w > lp && String.sub w 0 lp = p then
      (try r := int_of_string (String.sub w lp (String.length w - lp)) with _ -> ())) (words line);
  !r

let handle (lines : string list) : unit =
  let rec split acc = function
    | [] -> (List.rev acc, [])
    | "TRACE" :: r -> (List.rev acc, r)
    | l :: r -> split (l :: acc) r in
  let (script, trace) = split [] lines in
  match script with
  | h :: _ when String.length h >= 4 && String.sub h 0 4 = "pipe" ->
    accept_pipe (kvi h "writers" 1) (kvi h "per" 1) trace
  | h :: _ ->
    let cbs = ref "cmlraw" in
    List.iter (fun w ->
      if String.length w >= 4 && String.sub w 0 4 = "cbs=" then
        cbs := String.concat "" (String.split_on_char '-' (String.sub w 4 (String.length w - 4)))) (words h);
    accept_sock !cbs trace
  | [] -> accept_sock "cmlraw" trace

let () = run_cases handle
