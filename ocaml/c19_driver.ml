(* C19 model driver: same line protocol as harness/drivers/c19_driver.c *)
let handle (lines : string list) : unit =
  let st = ref None in
  List.iter (fun l ->
    match words l with
    | "init" :: k :: t :: n :: f :: rest ->
      let r = if k = "ns" then init (z_of_string t) (nat_of_int (int_of_string n)) (z_of_string f)
        else init_fast (match rest with d :: _ -> z_of_string d | [] -> z_of_int 1)
               (z_of_string t) (nat_of_int (int_of_string n)) (z_of_string f) in
      st := r;
      print_endline (match r with Some _ -> "init ok" | None -> "init fail")
    | [op; a] ->
      (match !st with
       | None -> print_endline "noctl"
       | Some s ->
         let now = z_of_string a in
         (match op with
          | "check" -> print_endline (string_of_bool01 (check s now))
          | "update" -> st := Some (update s now); print_endline "-"
          | "cu" -> let (s', b) = check_and_update s now in st := Some s'; print_endline (string_of_bool01 b)
          | "cfu" -> let (s', b) = check_and_force_update s now in st := Some s'; print_endline (string_of_bool01 b)
          | _ -> print_endline "?"))
    | _ -> ()) lines

let () = run_cases handle
