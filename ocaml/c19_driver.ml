(* C19 model driver: same line protocol as harness/drivers/c19_driver.c.
   init ns <t> <n> <fwd> [<base_sec> <base_nsec>] | init fast <t> <n> <fwd> <tick_freq> [<tick_base>]
   check/update <elapsed> : explicit-timestamp entry points
   cu/cfu <now> [<step>]  : the clock-reading entry points; the scenario clock is set to base + now and advances by
                            step at every read; with a step the result carries the reading the next read would get *)
type ctl = NoCtl | Ns of nsctl * z | Fast of fastctl * z      (* controller, absolute clock value at which now = 0 *)

let int_part (s : string) : string =            (* (int64_t)tick_freq of a non-negative double: truncation *)
  match String.index_opt s '.' with Some i -> if i = 0 then "0" else String.sub s 0 i | None -> s

let handle (lines : string list) : unit =
  let st = ref NoCtl in
  let zero = z_of_int 0 in
  List.iter (fun l ->
    match words l with
    | "init" :: k :: t :: n :: f :: rest ->
      let tz = z_of_string t and nn = nat_of_int (int_of_string n) and fz = z_of_string f in
      if k = "ns" then begin
        let base = match rest with
          | bs :: bn :: _ -> Z.add (Z.mul (z_of_string bs) (z_of_string "1000000000")) (z_of_string bn)
          | _ -> z_of_string "5000000000000" in
        match ns_init { c_next = base; c_step = zero } tz nn fz with
        | (Some c, _) -> st := Ns (c, base); print_endline "init ok"
        | (None, _) -> st := NoCtl; print_endline "init fail"
      end else begin
        let fq = match rest with d :: _ -> z_of_string (int_part d) | [] -> z_of_int 1 in
        let base = match rest with _ :: tb :: _ -> z_of_string tb | _ -> z_of_string "777000000000" in
        match fast_init { c_next = base; c_step = zero } fq tz nn fz with
        | (Some c, _) -> st := Fast (c, base); print_endline "init ok"
        | (None, _) -> st := NoCtl; print_endline "init fail"
      end
    | op :: a :: rest ->
      (match !st with
       | NoCtl -> print_endline "noctl"
       | _ ->
         let now = z_of_string a in
         let with_step = rest <> [] in
         let stp = match rest with s :: _ -> z_of_string s | [] -> zero in
         let fcof = function Ns (c, _) -> c.ns_fc | Fast (c, _) -> c.ff_fc | NoCtl -> assert false in
         let setfc s = (match !st with
           | Ns (c, b) -> st := Ns ({ c with ns_fc = s }, b)
           | Fast (c, b) -> st := Fast ({ c with ff_fc = s }, b)
           | NoCtl -> ()) in
         let out b k base = if with_step then print_endline (string_of_bool01 b ^ " " ^ string_of_z (Z.sub k.c_next base))
                            else print_endline (string_of_bool01 b) in
         (match op with
          | "check" -> print_endline (string_of_bool01 (check (fcof !st) now))
          | "update" -> setfc (update (fcof !st) now); print_endline "-"
          | "cu" | "cfu" ->
            (match !st with
             | Ns (c, base) ->
               let k = { c_next = Z.add base now; c_step = stp } in
               let ((c', b), k') = if op = "cu" then ns_check_and_update c k else ns_check_and_force_update c k in
               st := Ns (c', base); out b k' base
             | Fast (c, base) ->
               let k = { c_next = Z.add base now; c_step = stp } in
               let ((c', b), k') = if op = "cu" then fast_check_and_update c k else fast_check_and_force_update c k in
               st := Fast (c', base); out b k' base
             | NoCtl -> ())
          | _ -> print_endline "?"))
    | _ -> ()) lines

let () = run_cases handle
