(* C18 model driver: same line protocol as harness/drivers/c18_driver.c;
   prints what [run_scn inst faults] says. *)
let ints l = String.concat " " (List.map (fun n -> string_of_int (int_of_nat n)) l)

(* "labels-table": for every instance, the labels of its operation's cleanup blocks and the
   labels entered by the no-fault run (k 0) and by each single-fault run (k >= 1) *)
let dump_labels () =
  Printf.printf "dead %s\n" (ints dead_labels);
  List.iter (fun id ->
    if not (orig_id id) && int_of_nat id < 400 then begin
      Printf.printf "L %d all %s\n" (int_of_nat id) (ints (op_labels_of id));
      for k = 0 to 17 do
        let l = labels_at id (nat_of_int k) in
        if l <> [] then Printf.printf "L %d k %d %s\n" (int_of_nat id) k (ints l)
      done
    end) inst_ids

let handle (lines : string list) : unit =
  if List.mem "labels-table" lines then dump_labels () else
  let id = ref (-1) and ks = ref None and mode_retry = ref false in
  List.iter (fun l ->
    match words l with
    | "inst" :: _ :: i :: _ -> id := int_of_string i
    | "mode" :: "retry" :: _ -> mode_retry := true
    | "faults" :: r -> ks := Some (List.filter (fun k -> k >= 1) (List.map int_of_string r))
    | _ -> ()) lines;
  match !ks with
  | None -> print_endline "?"
  | Some ks ->
    (match run_inst (nat_of_int !id) (List.map (fun k -> nat_of_int (k - 1)) ks) with
     | None -> print_endline "?"
     | Some o ->
       Printf.printf "pre live=%d\n" (List.length o.o_base);
       if o.o_bad then print_endline "op CRASH"
       else begin
         let idn = nat_of_int !id in
         let isok = (match o.o_rc with Ok -> true | Fail -> false) in
         Printf.printf "op rc=%s att=%d live=%d\n" (if isok then "ok" else "fail")
           (int_of_nat o.o_att) (List.length o.o_live);
         if not isok then print_endline (if o.o_kept then "unchanged yes" else "unchanged NO");
         (* future B (mode retry): the failed operation is retried; future A: destroy follows directly *)
         let retried = (not isok) && !mode_retry && retry_of idn in
         if retried then Printf.printf "retry rc=%s\n" (if o.o_retry_ok then "ok" else "fail");
         let okk = isok || (retried && o.o_retry_ok) in
         if okk && cont_of idn then
           Printf.printf "cont rc=%s live=%d\n" (if o.o_cont_ok then "ok" else "fail") (List.length o.o_clive);
         let dbad, dlive, freed =
           if retried then o.o_rdbad, o.o_rdlive, o.o_rfreed else o.o_dbad, o.o_dlive, o.o_freed in
         if dbad then print_endline "destroy CRASH"
         else if okk || dfail_of idn then begin
           if int_of_nat (nvals_of idn) > 0 then
             Printf.printf "destroy live=%d freed=%d\n" (List.length dlive) (int_of_nat freed)
           else Printf.printf "destroy live=%d\n" (List.length dlive) end
         else Printf.printf "destroy skipped live=%d\n" (List.length dlive)
       end)

let () = run_cases handle
