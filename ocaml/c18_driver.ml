(* C18 model driver: same line protocol as harness/drivers/c18_driver.c;
   prints what [run_scn inst faults] says. *)
let ints l = String.concat " " (List.map (fun n -> string_of_int (int_of_nat n)) l)

(* "labels-table": for every instance, the labels of its operation's cleanup blocks and the
   labels entered by the no-fault run (k 0) and by each single-fault run (k >= 1) *)
let dump_labels () =
  Printf.printf "dead %s\n" (ints dead_labels);
  List.iter (fun id ->
    if int_of_nat id < 100 then begin
      Printf.printf "L %d all %s\n" (int_of_nat id) (ints (op_labels_of id));
      for k = 0 to 17 do
        let l = labels_at id (nat_of_int k) in
        if l <> [] then Printf.printf "L %d k %d %s\n" (int_of_nat id) k (ints l)
      done
    end) inst_ids

let handle (lines : string list) : unit =
  if List.mem "labels-table" lines then dump_labels () else
  let id = ref (-1) and ks = ref None in
  List.iter (fun l ->
    match words l with
    | "inst" :: _ :: i :: _ -> id := int_of_string i
    | "faults" :: r -> ks := Some (List.filter (fun k -> k >= 1) (List.map int_of_string r))
    | _ -> ()) lines;
  match !ks with
  | None -> print_endline "?"
  | Some ks ->
    (match run_inst (nat_of_int !id) (List.map (fun k -> nat_of_int (k - 1)) ks) with
     | None -> print_endline "?"
     | Some o ->
       Printf.printf "pre live=%d\n" (List.length o.o_base);
       if o.o_bad then print_endline "op CRASH"
       else begin
         let isok = (match o.o_rc with Ok -> true | Fail -> false) in
         Printf.printf "op rc=%s att=%d live=%d\n" (if isok then "ok" else "fail")
           (int_of_nat o.o_att) (List.length o.o_live);
         let idn = nat_of_int !id in
         let retried = (not isok) && retry_of idn in
         if retried then Printf.printf "retry rc=%s\n" (if o.o_retry_ok then "ok" else "fail");
         let isok = isok || (retried && o.o_retry_ok) in
         if o.o_dbad then print_endline "destroy CRASH"
         else if isok || dfail_of idn then begin
           if int_of_nat (nvals_of idn) > 0 then
             Printf.printf "destroy live=%d freed=%d\n" (List.length o.o_dlive) (int_of_nat o.o_freed)
           else Printf.printf "destroy live=%d\n" (List.length o.o_dlive) end
         else Printf.printf "destroy skipped live=%d\n" (List.length o.o_dlive)
       end)

let () = run_cases handle
