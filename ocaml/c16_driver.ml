(* C16 model driver.  The case lines are followed by "TRACE" and the implementation's output
   (lib/props/c16.py: model_cases): the formatter oracle lines ("call ...") for mode seq, the
   scheduler trace for mode vs.  Mode thr is computed from the scenario parameters alone. *)
let hex_of_bytes (l : int list) : string =
  let b = Buffer.create (2 * List.length l + 8) in
  List.iter (fun x -> Buffer.add_string b (Printf.sprintf "%02x" x)) l;
  Buffer.contents b
(* "len:hex" -> byte list *)
let bytes_of_field (s : string) : int list =
  match String.index_opt s ':' with
  | None -> []
  | Some i ->
    let h = String.sub s (i + 1) (String.length s - i - 1) in
    let n = String.length h / 2 in
    List.init n (fun k -> int_of_string ("0x" ^ String.sub h (2 * k) 2))
let after_eq (s : string) : string =
  match String.index_opt s '=' with Some i -> String.sub s (i + 1) (String.length s - i - 1) | None -> s
let nlist (l : int list) : byte list = List.map n_of_int l
let cells_hex (cs : cell list) : string * int =
  let b = Buffer.create 256 in
  List.iter (fun c -> match c with
    | Init x -> Buffer.add_string b (Printf.sprintf "%02x" (int_of_n x))
    | Uninit -> Buffer.add_string b "??"
    | Oob -> Buffer.add_string b "!!") cs;
  (Buffer.contents b, List.length cs)

type hs = { kind : string; level : int; fmt : int }
let hkind_of = function
  | "cap" -> HCap | "console" -> HConsole true | "conplain" -> HConsole false | _ -> HFile

(* static handler levels: the early-out of the log functions is the threshold min_level
   (Properties_C16.handler_level_prefilter_static); no handler: nothing passes *)
let static_threshold hl = match min_level hl with Some m -> m | None -> z_of_string "4611686018427387904"

let rec upto n = if n <= 0 then [] else upto (n - 1) @ [n - 1]

(* ------------------------------------------------------------------ *)
let thr_levels = [| 0; 256; 512; 768; 1024; 1280 |]
let thr_level t k = thr_levels.((((t + k) mod 6) + 6) mod 6)
let make_payload paylen t k : int list =
  let len = paylen + (k * 7 + t * 3) mod 11 in
  let head = Printf.sprintf "T%02d-%06d-" t k in
  let n0 = String.length head in
  let b = Buffer.create 64 in
  Buffer.add_string b head;
  for n = n0 to len - 1 do Buffer.add_char b (Char.chr (Char.code 'a' + (t * 5 + k + n) mod 26)) done;
  List.init (Buffer.length b) (fun i -> Char.code (Buffer.nth b i))

let str_bytes s = List.init (String.length s) (fun i -> Char.code s.[i])

(* The formatted line comes from the MODEL's formatters (Model.builtin_format with the level names
   re-extracted into code_fmtcfg): level name, clock fields, file:line, function, thread id, payload,
   newline.  The harness only says where a call was made: the drivers' source location
   (c16_src.c / c16_case), the canonical clock and thread id of the case. *)
let msrc_of srcline tid sec nsec : msrc =
  { ms_file = nlist (str_bytes "c16_src.c"); ms_line = z_of_int srcline; ms_func = nlist (str_bytes "c16_case");
    ms_tid = z_of_int tid; ms_sec = z_of_int sec; ms_nsec = z_of_int nsec }
let fmt_line fmt level srcline tid sec nsec (payload : int list) : int list =
  let m = { m_level = z_of_int level; m_id = O; m_payload = nlist payload } in
  List.map int_of_n (builtin_format code_fmtcfg (fun _ -> msrc_of srcline tid sec nsec) (nat_of_int fmt) m)
(* decimal text of a non-negative int, by the model's renderer *)
let dec_bytes (n : int) : int list = List.map int_of_n (dec_pad O (z_of_int n))

(* ------------------------------------------------------------------ *)
let handle (lines : string list) : unit =
  let rec split acc = function
    | "TRACE" :: rest -> (List.rev acc, rest)
    | x :: rest -> split (x :: acc) rest
    | [] -> (List.rev acc, []) in
  let (cfg, trace) = split [] lines in
  let mode = ref "seq" and is_async = ref false and capacity = ref 0 and fixed = ref true and init_logger = ref 0 in
  let hss = ref [] and ops = ref [] and thn = ref 0 and thm = ref 0 and thp = ref 0 in
  let sec = ref 1700000000 and nsec = ref 123456789 and lossy = ref false and tick = ref 0 in
  List.iter (fun l -> match words l with
    | ["mode"; m] -> mode := m
    | "logger" :: "async" :: c :: _ -> is_async := true; capacity := int_of_string c
    | "logger" :: "inits" :: _ -> is_async := false; init_logger := 1
    | "logger" :: "initc" :: _ -> is_async := false; init_logger := 2
    | "logger" :: _ -> is_async := false
    | ["clock"; a; b] -> sec := int_of_string a; nsec := int_of_string b
    | ["h"; k; lv; f] -> hss := !hss @ [{ kind = k; level = int_of_string lv; fmt = if f = "complicated" then 1 else if f = "raw" then 2 else if f = "initsimple" then 3 else 0 }]
    | ["setlevel"; i; lv] -> ops := !ops @ [`Set (int_of_string i, int_of_string lv)]
    | ["failmalloc"; k] -> ops := !ops @ [`Fail (int_of_string k)]
    | "log" :: lv :: sl :: tm :: rest -> ops := !ops @ [`Log (int_of_string lv, int_of_string sl, tm, match rest with h :: _ -> h | [] -> "")]
    | "hold" :: lv :: sl :: tm :: rest -> ops := !ops @ [`Hold (int_of_string lv, int_of_string sl, tm, match rest with h :: _ -> h | [] -> "")]
    | "release" :: _ -> ops := !ops @ [`Release]
    | ["threads"; n; m; p] -> thn := int_of_string n; thm := int_of_string m; thp := int_of_string p
    | "lossy" :: _ -> lossy := true
    | ["tick"; d] -> tick := int_of_string d
    | ["modelfixed"; b] -> fixed := (b = "1")
    | _ -> ()) cfg;
  let hss = Array.of_list !hss in
  let nh = Array.length hss in
  if nh > 10 || !thn > 16 then print_endline "F badcase" else begin
  Printf.printf "limit %d\n" (int_of_nat code_limit);
  if !mode = "thr" then print_endline "mode thr";
  if !lossy then print_endline "lossy";
  let lv = code_levels in
  (* the calls of a sequential case: level, source line, the text vsnprintf would produce without a limit
     ("s": the content; "ds": "%d|%s" of the source line and the content; "lit": the content as format).
     The implementation prints, per call, that text and what its formatters make of the (bounded) payload
     in an unbounded buffer; the model prints the same lines from its own formatters. *)
  let calls = Array.of_list (List.filter_map (fun o -> match o with
    | `Log (lv, sl, tm, hx) | `Hold (lv, sl, tm, hx) ->
      let content = bytes_of_field (":" ^ hx) in
      Some (lv, sl, (if tm = "ds" then dec_bytes sl @ [124] @ content else content))
    | _ -> None) !ops) in
  let src (id : nat) : msrc =
    let i = int_of_nat id in
    let sl = if i >= 0 && i < Array.length calls then (let (_, s, _) = calls.(i) in s) else 0 in
    msrc_of sl 4242 !sec !nsec in
  let format = builtin_format code_fmtcfg src in
  let text_of idx = if idx < Array.length calls then (let (_, _, t) = calls.(idx) in t) else [] in
  if !mode = "seq" then
    Array.iteri (fun idx (level, _sl, text) ->
      let m = { m_level = z_of_int level; m_id = nat_of_int idx; m_payload = payload_of code_limit (nlist text) } in
      let f k = let b = List.map int_of_n (format (nat_of_int k) m) in Printf.sprintf "%d:%s" (List.length b) (hex_of_bytes b) in
      Printf.printf "call %d %d text=%d:%s simple=%s complicated=%s raw=%s\n" idx level (List.length text) (hex_of_bytes text)
        (f 0) (f 1) (f 2)) calls;
  ignore trace;
  (* attach handlers *)
  let lg = ref (logger_init lv) in
  let added = Array.make nh false in
  Array.iteri (fun i h ->
    let (lg', ok) = add_handler lv !lg { h_kind = hkind_of h.kind; h_level = z_of_int h.level; h_fmt = nat_of_int h.fmt } in
    lg := lg'; added.(i) <- ok;
    Printf.printf "add %d %s\n" i (if ok then "ok" else "refused")) hss;
  if !init_logger > 0 then begin
    (* muggle_log_simple_init / muggle_log_complicated_init: the handlers they attach and, per call, the unbounded
       output of the formatter they install (3 = muggle_log_simple_init_fmt, 1 = the complicated layout) *)
    Printf.printf "initcnt %d\n" (List.length (!lg).lg_handlers);
    if (!lg).lg_handlers <> [] then begin
      let k = ref 0 in
      List.iter (fun o -> match o with
        | `Log (level, _, _, _) ->
          let m = { m_level = z_of_int level; m_id = nat_of_int !k; m_payload = payload_of code_limit (nlist (text_of !k)) } in
          let b = List.map int_of_n (format (nat_of_int (if !init_logger = 1 then 3 else 1)) m) in
          Printf.printf "icall %d %d init=%d:%s\n" !k level (List.length b) (hex_of_bytes b); incr k
        | `Hold _ -> incr k
        | _ -> ()) !ops
    end
  end;
  (* handler index in the logger's list = position among the added ones *)
  let pos_of = Array.make nh (-1) in
  let c = ref 0 in
  Array.iteri (fun i _ -> if added.(i) then (pos_of.(i) <- !c; incr c)) hss;
  let streams = Array.init nh (fun _ -> [| Buffer.create 256; Buffer.create 256 |]) in
  let rets = Array.make nh [] in
  let crashed = ref false in
  let emit_all (ems : emission list) =
    List.iter (fun ((idx, st), cells) ->
      let p = int_of_nat idx in
      (* back from list position to case handler index *)
      let hi = ref (-1) in
      Array.iteri (fun i q -> if q = p then hi := i) pos_of;
      if !hi >= 0 then begin
        let (hx, n) = cells_hex cells in
        Buffer.add_string streams.(!hi).(int_of_nat st) hx;
        rets.(!hi) <- rets.(!hi) @ [n]
      end) ems in
  let dump () =
    Array.iteri (fun i h ->
      let out = Buffer.contents streams.(i).(0) and err = Buffer.contents streams.(i).(1) in
      if String.length h.kind >= 3 && String.sub h.kind 0 3 = "con" then begin
        Printf.printf "out %d %d:%s\n" i (String.length out / 2) out;
        Printf.printf "err %d %d:%s\n" i (String.length err / 2) err
      end else begin
        let out = if h.kind = "filea" then hex_of_bytes (str_bytes "PRE-EXISTING LINE\n") ^ out else out in
        Printf.printf "file %d %d:%s\n" i (String.length out / 2) out;
        if h.kind = "cap" && !mode = "seq" then
          Printf.printf "rets %d%s\n" i (String.concat "" (List.map (fun r -> " " ^ string_of_int r) rets.(i)))
      end) hss in
  let has_hold = List.exists (fun o -> match o with `Hold _ | `Release -> true | _ -> false) !ops in
  if !mode = "seq" && !is_async && has_hold then begin
    (* queue view of the async logger: the writer thread is stopped (hold) and released by the harness *)
    let st = ref { aq_lg = !lg; aq_held = None; aq_pending = [] } in
    let idx = ref 0 in
    let step o = let (s', ems) = aseq_step format lv code_limit !fixed !st o in st := s'; emit_all ems in
    let log hold level =
      step (AOLog (hold, z_of_int level, nat_of_int !idx, nlist (text_of !idx))); incr idx in
    List.iter (fun o -> match o with
      | `Set (i, l) -> if i >= 0 && i < nh && pos_of.(i) >= 0 then step (AOSet (nat_of_int pos_of.(i), z_of_int l))
      | `Fail _ -> ()
      | `Log (level, _, _, _) -> log false level
      | `Hold (level, _, _, _) -> log true level
      | `Release -> step AORelease) !ops;
    step AORelease;
    print_endline "F destroyed=1 live=0";
    dump ()
  end else
  if !mode = "seq" then begin
    let idx = ref 0 and fail = ref 0 in
    List.iter (fun o -> if not !crashed then match o with
      | `Release -> ()
      | `Set (i, l) -> if i >= 0 && i < nh && pos_of.(i) >= 0 then lg := set_level !lg (nat_of_int pos_of.(i)) (z_of_int l)
      | `Fail k -> fail := k
      | `Log (level, _, _, _) | `Hold (level, _, _, _) ->
        let text = text_of !idx in
        if !is_async then begin
          (match async_log_seq format lv code_limit !fixed !lg (z_of_int level) (nat_of_int !idx) (nlist text)
                   (!fail <> 1) (!fail <> 2) with
           | Some ems -> emit_all ems
           | None -> crashed := true)
        end else
          emit_all (sync_log format lv code_limit !fixed !lg (z_of_int level) (nat_of_int !idx) (nlist text));
        fail := 0; incr idx) !ops;
    if !crashed then print_endline "CRASH null payload"
    else begin
      print_endline "F destroyed=1 live=0";
      dump ()
    end
  end else if !mode = "thr" then begin
    (* real threads: any interleaving of whole lines is allowed; the canonical form is sorted *)
    for t = 0 to !thn - 1 do
      for k = 0 to !thm - 1 do
        let level = thr_level t k in
        let payload = make_payload !thp t k in
        let format f (_m : lmsg) = nlist (fmt_line (int_of_nat f) level (1000 + t) (100 + t) (!sec + k * !tick) !nsec payload) in
        emit_all (sync_log format lv code_limit !fixed !lg (z_of_int level) (nat_of_int k) (nlist payload))
      done
    done;
    print_endline "F destroyed=1 live=0";
    dump ()
  end else begin
    (* mode vs: trace acceptance.  Every E / R / X line of the implementation's trace must be the
       label the model produces for that thread at that point; P lines (ends of plain segments)
       carry no information at this granularity and are echoed. *)
    let off = if !is_async then 1 else 0 in          (* scheduler tid of producer 0 *)
    let hl = (!lg).lg_handlers in
    let level_of t k = z_of_int (thr_level (int_of_nat t - off) (int_of_nat k)) in
    let cell_id c =
      if c = "wmtx" then 2 else if c = "rcur" then 3 else if c = "wcur" then 4 else if c = "join" then 5
      else if c = "cap" || c = "fwrite" then 1 else if c = "-" then 0
      else if String.length c > 4 && String.sub c 0 4 = "hmtx" then
        (let i = int_of_string (String.sub c 4 (String.length c - 4)) in
         if i < nh && pos_of.(i) >= 0 then 100 + pos_of.(i) else 999)
      else 999 in
    let hpos h = let i = int_of_string h in if i >= 0 && i < nh then pos_of.(i) else (-1) in
    let note_of ws = match ws with
      | ["call"; _k; l] -> (1, int_of_string l)
      | ["emit1"; h] | ["fw1"; h] -> (2, hpos h)
      | ["emit2"; h] | ["fw2"; h] -> (3, hpos h)
      | ["malloc"; _] -> (4, 0) | ["free"; _] -> (5, 0) | ["done"] -> (6, 0)
      | ["destroy"] -> (7, 0) | ["destroyed"] -> (8, 0) | ["consdone"] -> (9, 0)
      | ["joincheck"; v] -> (10, int_of_string v)
      | _ -> (99, 0) in
    let run (type s) (step : s -> nat -> nat -> (s * label) option) (st0 : s) (nthreads : int) : s * bool =
      let st = ref st0 and ok = ref true in
      let reject l why = Printf.printf "REJECT %s :: %s\n" l why; ok := false in
      let describe = function
        | Some (_, LEv e) -> Printf.sprintf "model performs %s cell=%d b=%s c=%s" (string_of_opk e.e_op) (int_of_nat e.e_cell) (string_of_z e.e_b) (string_of_z e.e_c)
        | Some (_, LPlain ns) -> "model notes [" ^ String.concat ";" (List.map (fun (k, v) -> Printf.sprintf "%d:%s" (int_of_nat k) (string_of_z v)) ns) ^ "]"
        | Some (_, LExit) -> "model thread is at exit"
        | None -> "model thread is not enabled" in
      List.iter (fun l -> if !ok then begin
        match words l with
        (* rotation of a rotating handler (fclose / fopen of its stream): harness-owned scheduling points
           inside the handler's critical section; the model's stream is the concatenation of all files *)
        | "E" :: _ :: "plain" :: ("fclose" | "fopen") :: _ -> print_endline l
        | "R" :: _ :: "rotop" :: _ -> print_endline l
        | "E" :: t :: op :: cell :: _mo :: _a :: b :: c :: _ ->
          let r = step !st (nat_of_int (int_of_string t)) O in
          (match r with
           | Some (s', LEv e) when e.e_op = opk_of_string op && int_of_nat e.e_cell = cell_id cell
                                   && (op <> "fwait" || int_of_z e.e_c = int_of_string c)
                                   && (op <> "fwake" || int_of_z e.e_b = int_of_string b) ->
             st := s'; print_endline l
           | _ -> reject l (describe r))
        | "R" :: t :: ws ->
          let r = step !st (nat_of_int (int_of_string t)) O in
          let (code, arg) = note_of ws in
          (match r with
           | Some (s', LPlain [(k, v)]) when int_of_nat k = code && int_of_z v = arg -> st := s'; print_endline l
           | _ -> reject l (describe r))
        | ["X"; t] ->
          let r = step !st (nat_of_int (int_of_string t)) O in
          (match r with
           | Some (s', LExit) -> st := s'; print_endline l
           | _ -> reject l (describe r))
        | "DEADLOCK" :: _ ->
          if List.for_all (fun t -> step !st (nat_of_int t) O = None) (upto nthreads) then print_endline l
          else reject l "model has an enabled thread"
        | "LIVELOCK" :: _ | "W" :: _ | "P" :: _ -> print_endline l
        | _ -> ()
      end) trace;
      (!st, !ok) in
    (* bytes of a chunk: the cut line of call (t, k) under handler position p, first or second part *)
    let chunk_bytes p ((t, k), half) =
      let t = int_of_nat t - off and k = int_of_nat k in
      let hi = ref 0 in
      Array.iteri (fun i q -> if q = p then hi := i) pos_of;
      let level = thr_level t k in
      let payload = make_payload !thp t k in
      let line = nlist (fmt_line hss.(!hi).fmt level (1000 + t) (100 + t) (!sec + k * !tick) !nsec payload) in
      let w = handler_write true code_limit line in
      let (hx, n) = cells_hex w.hw_out in
      let a = n / 2 in
      if int_of_nat half = 1 then String.sub hx 0 (2 * a) else String.sub hx (2 * a) (2 * (n - a)) in
    (* a console handler: stdout below WARNING, stderr from WARNING on; with colours the escape sequence goes out
       before the first part of the line and the reset after the second (Model.handler_emit) *)
    let con_chunk p ((t, k), half) : int * string =
      let t' = int_of_nat t - off and k' = int_of_nat k in
      let hi = ref 0 in
      Array.iteri (fun i q -> if q = p then hi := i) pos_of;
      let level = thr_level t' k' in
      let payload = make_payload !thp t' k' in
      let srcf = fun _ -> msrc_of (1000 + t') (100 + t') (!sec + k' * !tick) !nsec in
      let h = { h_kind = hkind_of hss.(!hi).kind; h_level = z_of_int hss.(!hi).level; h_fmt = nat_of_int hss.(!hi).fmt } in
      let m = { m_level = z_of_int level; m_id = O; m_payload = payload_of code_limit (nlist payload) } in
      let ((_, st), cells) = handler_emit (builtin_format code_fmtcfg srcf) code_levels code_limit true O h m in
      let (hx, total) = cells_hex cells in
      let line = builtin_format code_fmtcfg srcf h.h_fmt m in
      let n = List.length (handler_write true code_limit line).hw_out in
      let post = if total > n then List.length esc_rst else 0 in
      let pre = total - n - post in
      let cut = pre + n / 2 in
      (int_of_nat st, if int_of_nat half = 1 then String.sub hx 0 (2 * cut) else String.sub hx (2 * cut) (2 * (total - cut))) in
    let dump_chunks (out : nat -> chunk list) =
      Array.iteri (fun i h ->
        if String.length h.kind >= 3 && String.sub h.kind 0 3 = "con" then begin
          let bo = Buffer.create 256 and be = Buffer.create 256 in
          if pos_of.(i) >= 0 then
            List.iter (fun c -> let (st, hx) = con_chunk pos_of.(i) c in Buffer.add_string (if st = 1 then be else bo) hx)
              (out (nat_of_int pos_of.(i)));
          Printf.printf "out %d %d:%s\n" i (Buffer.length bo / 2) (Buffer.contents bo);
          Printf.printf "err %d %d:%s\n" i (Buffer.length be / 2) (Buffer.contents be)
        end else if pos_of.(i) >= 0 then begin
          let hx = String.concat "" (List.map (chunk_bytes pos_of.(i)) (out (nat_of_int pos_of.(i)))) in
          Printf.printf "file %d %d:%s\n" i (String.length hx / 2) hx
        end else Printf.printf "file %d 0:\n" i) hss in
    if !is_async then begin
      let a = { as_n = nat_of_int !thn; as_msgs = nat_of_int !thm; as_level = level_of;
                as_handlers = hl; as_lowest = static_threshold hl; as_usable = usable_of (nat_of_int !capacity) } in
      let (st, ok) = run (astep !fixed a) (ainit a) (!thn + 1) in
      if ok then begin
        Printf.printf "F destroyed=%d live=%d\n" (if st.a_destroyed then 1 else 0) (int_of_nat st.a_live);
        dump_chunks st.a_out
      end
    end else begin
      let sc = { sc_n = nat_of_int !thn; sc_msgs = nat_of_int !thm; sc_level = level_of;
                 sc_handlers = hl; sc_lowest = static_threshold hl } in
      let (st, ok) = run (sstep sc) sinit !thn in
      if ok then begin
        let finished = List.for_all (fun t -> (st.s_thr (nat_of_int t)).s_pc = SDone) (upto !thn) in
        Printf.printf "F destroyed=%d live=0\n" (if finished then 1 else 0);
        dump_chunks st.s_out
      end
    end
  end
  end

let () = run_cases handle
