(* C07 model driver: same line protocol as harness/drivers/c07_driver.c.
   Every operation goes through the extracted [observe] (= [step] + the three
   public queries), i.e. through exactly the function the theorems are about. *)
let fill = z_of_int 0xEE

let hexval ch =
  match ch with
  | '0' .. '9' -> Char.code ch - 48
  | 'a' .. 'f' -> Char.code ch - 87
  | 'A' .. 'F' -> Char.code ch - 55
  | _ -> 0

let unhex (h : string) : z list =
  if h = "-" then []
  else List.init (String.length h / 2) (fun i -> z_of_int (hexval h.[2 * i] * 16 + hexval h.[2 * i + 1]))

let hex (l : z list) : string =
  if l = [] then "-" else String.concat "" (List.map (fun b -> Printf.sprintf "%02x" (int_of_z b land 255)) l)

let off_str = function None -> "null" | Some o -> string_of_z o

let handle (lines : string list) : unit =
  let x = ref None in
  let tail (ob : obs) cap =
    Printf.sprintf " | rd=%s wr=%s cr=%s%s" (string_of_z ob.o_rd) (string_of_z ob.o_wr) (string_of_z ob.o_cr)
      (if acc_in_range cap ob.o_acc then "" else " MODEL-ACCESS-OUT-OF-RANGE") in
  let doop name (o : op) =
    match !x with
    | None -> print_endline "nobuf"
    | Some s ->
      let (s', ob) = observe s o in
      x := Some s';
      let body = match ob.o_res with
        | RBool b -> name ^ " " ^ string_of_bool01 b
        | RBytes None -> name ^ " 0"
        | RBytes (Some bs) -> name ^ " 1 " ^ hex bs
        | RPtr o -> name ^ " " ^ off_str o
        | RMove (b, o) -> name ^ " " ^ string_of_bool01 b ^ " " ^ off_str o
        | RPtrBytes None -> name ^ " null"
        | RPtrBytes (Some (o, bs)) -> name ^ " " ^ string_of_z o ^ " " ^ hex bs
        | RUnit -> name
        | RSkip -> name ^ " skip" in
      print_endline (body ^ tail ob s'.st.cap) in
  List.iter (fun l ->
    match words l with
    | ["init"; c] ->
      let s = start (z_of_string c) fill in
      x := Some s;
      Printf.printf "init 1 | rd=%s wr=%s cr=%s\n" (string_of_z (readable s.st)) (string_of_z (writable s.st))
        (string_of_z (contiguous_readable s.st))
    | ["st"] ->
      (match !x with
       | None -> print_endline "nobuf"
       | Some s -> Printf.printf "st %s %s %s %s\n" (string_of_z s.st.cap) (string_of_z s.st.wp)
                     (string_of_z s.st.rp) (string_of_z s.st.tp))
    | ["write"; h] -> doop "write" (OWrite (unhex h))
    | ["read"; n] -> doop "read" (ORead (z_of_string n))
    | ["fetch"; n] -> doop "fetch" (OFetch (z_of_string n))
    | ["wfc"; n] -> doop "wfc" (OWfc (z_of_string n))
    | ["wmn"; h] -> doop "wmn" (OWmn (unhex h))
    | ["wmove"; h] -> doop "wmove" (OWmove (unhex h))
    | ["rfc"; n] -> doop "rfc" (ORfc (z_of_string n))
    | ["rmove"; k] -> doop "rmove" (ORmove (z_of_string k))
    | ["clear"] -> doop "clear" OClear
    | [] -> ()
    | _ -> (match !x with None -> print_endline "nobuf" | Some _ -> print_endline "?")) lines

let () = run_cases handle
