(* C07 model driver: same line protocol as harness/drivers/c07_driver.c (which documents it).
   Every operation goes through the extracted [observe] (= [step] + the three
   public queries), i.e. through exactly the function the theorems are about. *)
let fill = z_of_int 0xEE

let hexval ch =
  match ch with
  | '0' .. '9' -> Char.code ch - 48
  | 'a' .. 'f' -> Char.code ch - 87
  | 'A' .. 'F' -> Char.code ch - 55
  | _ -> 0

let unhex (h : string) : z list =
  if h = "-" then []
  else List.init (String.length h / 2) (fun i -> z_of_int (hexval h.[2 * i] * 16 + hexval h.[2 * i + 1]))

let hex (l : z list) : string =
  if l = [] then "-" else String.concat "" (List.map (fun b -> Printf.sprintf "%02x" (int_of_z b land 255)) l)

let off_str = function None -> "null" | Some o -> string_of_z o

let handle (lines : string list) : unit =
  let x = ref None in
  let tailq (s : sess) extra =
    Printf.sprintf " | rd=%s wr=%s cr=%s%s" (string_of_z (readable s.st)) (string_of_z (writable s.st))
      (string_of_z (contiguous_readable s.st)) extra in
  let tail (ob : obs) cap =
    Printf.sprintf " | rd=%s wr=%s cr=%s%s" (string_of_z ob.o_rd) (string_of_z ob.o_wr) (string_of_z ob.o_cr)
      (if acc_in_range cap ob.o_acc then "" else " MODEL-ACCESS-OUT-OF-RANGE") in
  let doop name (o : op) =
    match !x with
    | None -> print_endline "nobuf"
    | Some s ->
      let (s', ob) = observe s o in
      x := Some s';
      let body = match ob.o_res with
        | RBool b -> name ^ " " ^ string_of_bool01 b
        | RBytes None -> name ^ " 0"
        | RBytes (Some bs) -> name ^ " 1 " ^ hex bs
        | RPtr o -> name ^ " " ^ off_str o
        | RMove (b, o) -> name ^ " " ^ string_of_bool01 b ^ " " ^ off_str o
        | RPtrBytes None -> name ^ " null"
        | RPtrBytes (Some (o, bs)) -> name ^ " " ^ string_of_z o ^ " " ^ hex bs
        | RUnit -> name
        | RSkip -> name ^ " skip" in
      print_endline (body ^ tail ob s'.st.cap) in
  (* a negative byte count is outside the documented usage of read / fetch / reader_move (hypothesis wf_op of
     the theorems): the line is not performed, exactly as in the C driver; read / rmove still drop the
     outstanding reader region *)
  let negative name drops =
    match !x with
    | None -> print_endline "nobuf"
    | Some s ->
      let s' = if drops then { st = s.st; wptr = s.wptr; rptr = None } else s in
      x := Some s';
      print_endline (name ^ " skip" ^ tailq s' "") in
  let isneg n = String.length n > 0 && n.[0] = '-' in
  List.iter (fun l ->
    match words l with
    | "init" :: c :: rest ->
      let ok = not (List.mem "fail" rest) in
      (match start_opt (z_of_string c) fill ok with
       | None -> x := None; print_endline "init 0"
       | Some s ->
         x := Some s;
         Printf.printf "init 1 | rd=%s wr=%s cr=%s\n" (string_of_z (readable s.st)) (string_of_z (writable s.st))
           (string_of_z (contiguous_readable s.st)))
    | ["st"] ->
      (match !x with
       | None -> print_endline "nobuf"
       | Some s -> Printf.printf "st %s %s %s %s\n" (string_of_z s.st.cap) (string_of_z s.st.wp)
                     (string_of_z s.st.rp) (string_of_z s.st.tp))
    | ["write"; h] -> doop "write" (OWrite (unhex h))
    | ["writen"; n] -> doop "writen" (OWriteN (z_of_string n))
    | ["read"; n] -> if isneg n then negative "read" true else doop "read" (ORead (z_of_string n))
    | ["fetch"; n] -> if isneg n then negative "fetch" false else doop "fetch" (OFetch (z_of_string n))
    | ["wfc"; n] -> doop "wfc" (OWfc (z_of_string n))
    | ["wmn"; h] -> doop "wmn" (OWmn (unhex h))
    | ["wmove"; h] -> doop "wmove" (OWmove (unhex h))
    | ["wmoven"; n] -> doop "wmoven" (OWmoveN (z_of_string n))
    | ["rfc"; n] -> doop "rfc" (ORfc (z_of_string n))
    | ["rpk"] -> doop "rpk" ORpeek
    | ["rmove"; k] -> if isneg k then negative "rmove" true else doop "rmove" (ORmove (z_of_string k))
    | ["clear"] -> doop "clear" OClear
    | [] -> ()
    | _ -> (match !x with None -> print_endline "nobuf" | Some _ -> print_endline "?")) lines

let () = run_cases handle
